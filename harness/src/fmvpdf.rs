//! Family `fmvpdf` (C20): the statement extractor END TO END.  Generated statements (family `fmv`'s
//! well-formed cases) are written as real PDF files (lopdf; one text line per `Tj`, the bullet
//! through a ToUnicode map), and the real tool (`questrade_statement_fmv_impl::run()`, this binary
//! re-executed with ACB_VERIF_MULTICALL=qfmv) reads them: PDF loading, the page-order hints on the
//! real document, text extraction, the state machine, the table of all statements with its
//! abbreviations.  Oracle (implementation only): the printed table, read back through its own
//! "ABBR = description" notes, shows for every statement its month, its total and every holding
//! that `parse_statement_text` finds in the same page texts — each exactly once.
//!
//!   case <id> fmvpdf statements=<n> parallel=0|1
//!   impl same rows=<n> secs=<n>      |  impl differ <what>  |  impl skipped <why>
//!   repro <page texts>
//!   end
use std::collections::{BTreeMap, BTreeSet};
use std::path::{Path, PathBuf};
use std::process::Command;

use acb::peripheral::questrade_statement_fmv_impl::parse_statement_text;
use lopdf::content::{Content, Operation};
use lopdf::{dictionary, Document, Object, Stream};
use rust_decimal::Decimal;

use crate::common::{catch, oneline};
use crate::rng::Rng;

const TOUNICODE: &str = "/CIDInit /ProcSet findresource begin\n12 dict begin\nbegincmap\n/CMapName /Adobe-Identity-UCS def\n/CMapType 2 def\n1 begincodespacerange\n<00> <FF>\nendcodespacerange\n4 beginbfchar\n<80> <25A0>\n<81> <00B9>\n<82> <00B2>\n<83> <00B3>\nendbfchar\nendcmap\nCMapName currentdict /CMap defineresource pop\nend\nend\n";

fn pdf_bytes(line: &str) -> Option<Vec<u8>> {
    let mut v = Vec::new();
    for ch in line.chars() {
        if ch == '■' {
            v.push(0x80u8);
        } else if ch == '¹' {
            v.push(0x81u8);
        } else if ch == '²' {
            v.push(0x82u8);
        } else if ch == '³' {
            v.push(0x83u8);
        } else if ch == '\t' || ch == '\u{a0}' {
            v.push(b' ');
        } else if ch.is_ascii() && !ch.is_ascii_control() {
            v.push(ch as u8);
        } else {
            return None;
        }
    }
    Some(v)
}

/// A PDF whose page k carries the lines of `pages[k]`, top to bottom.
pub fn make_pdf(pages: &[String]) -> Option<Document> {
    let mut doc = Document::with_version("1.5");
    let pages_id = doc.new_object_id();
    let cmap_id = doc.add_object(Stream::new(dictionary! {}, TOUNICODE.as_bytes().to_vec()));
    let font_id = doc.add_object(dictionary! {
        "Type" => "Font", "Subtype" => "Type1", "BaseFont" => "Courier", "ToUnicode" => cmap_id,
    });
    let resources_id = doc.add_object(dictionary! { "Font" => dictionary! { "F1" => font_id } });
    let mut kids: Vec<Object> = Vec::new();
    for text in pages {
        let mut ops = vec![
            Operation::new("BT", vec![]),
            Operation::new("Tf", vec!["F1".into(), 8.into()]),
            Operation::new("Td", vec![30.into(), 820.into()]),
        ];
        for line in text.split('\n') {
            let b = pdf_bytes(line)?;
            if !b.is_empty() {
                ops.push(Operation::new("Tj", vec![Object::String(b, lopdf::StringFormat::Literal)]));
            }
            ops.push(Operation::new("Td", vec![0.into(), (-9).into()]));
        }
        ops.push(Operation::new("ET", vec![]));
        let content = Content { operations: ops };
        let content_id = doc.add_object(Stream::new(dictionary! {}, content.encode().ok()?));
        let page_id = doc.add_object(dictionary! { "Type" => "Page", "Parent" => pages_id, "Contents" => content_id });
        kids.push(page_id.into());
    }
    let n = kids.len() as i64;
    let pages_dict = dictionary! {
        "Type" => "Pages", "Kids" => kids, "Count" => n, "Resources" => resources_id,
        "MediaBox" => vec![0.into(), 0.into(), 595.into(), 842.into()],
    };
    doc.objects.insert(pages_id, Object::Dictionary(pages_dict));
    let catalog_id = doc.add_object(dictionary! { "Type" => "Catalog", "Pages" => pages_id });
    doc.trailer.set("Root", catalog_id);
    Some(doc)
}

fn scratch_root() -> PathBuf {
    std::env::temp_dir().join(format!("acb_verif_fmvpdf_{}", std::process::id()))
}

fn money(cell: &str) -> Option<Decimal> {
    cell.replace(['$', ','], "").trim().parse().ok()
}

struct Want {
    month: String,
    total: Decimal,
    secs: Vec<(String, Decimal)>,
}

fn squash(s: &str) -> String {
    s.split_whitespace().collect::<Vec<_>>().join(" ")
}

pub fn run_case(id: &str, r: &mut Rng, out: &mut String) {
    let root = scratch_root().join(id.replace(|ch: char| !ch.is_ascii_alphanumeric(), "_"));
    let _ = std::fs::create_dir_all(&root);
    let nst = 1 + r.below(3) as usize;
    let parallel = r.chance(30);
    let mut wants: Vec<Want> = Vec::new();
    let mut files: Vec<String> = Vec::new();
    let mut repro = String::new();
    let mut skipped: Option<String> = None;
    let mut months = BTreeSet::new();
    let mut expect_fail = false;
    for k in 0..nst {
        // a well-formed statement whose lines can be written with the test font
        let mut found = None;
        for _ in 0..40 {
            let c = crate::fmv::gen_case(r);
            if !c.wf || c.table.is_none() || c.month.is_none() {
                continue;
            }
            let m = c.month.unwrap();
            if months.contains(&(m.year(), m.month() as u8)) {
                continue;
            }
            if c.pages.iter().all(|p| p.split('\n').all(|l| pdf_bytes(l).is_some())) {
                found = Some(c);
                break;
            }
        }
        let c = match found {
            Some(c) => c,
            None => {
                skipped = Some("no printable well-formed statement generated".into());
                break;
            }
        };
        // real statements are longer: filler pages in front of the allocation table, so that it
        // lands on and around the pages the tool's page-order hints name ([1, 7], [6, 8])
        let mut c = c;
        if let Some((ti, _)) = &c.table {
            let k = r.below(9) as usize;
            for j in 0..k {
                // now and then a page without any text (a chart, a blank back side)
                let filler = if r.chance(20) { String::new() } else { format!("Activity details, continued ({})\nNothing of interest here\n", j + 1) };
                c.pages.insert(*ti, filler);
            }
        }
        // what the text-level extractor finds in these pages, read in the order in which the tool
        // visits them (hinted pages first)
        let n = c.pages.len() as u32;
        let hints: Vec<Vec<u32>> = crate::pages::CLI_HINTS.iter().map(|g| g.to_vec()).collect();
        let order: Vec<u32> = acb::peripheral::pdf::LazyPageTextVec::safe_page_chunks_with_remainder_pn(n, &hints)
            .into_iter()
            .flatten()
            .collect();
        let pages: Vec<String> = order.iter().filter_map(|p| c.pages.get(*p as usize - 1).cloned()).collect();
        let lib = catch(move || parse_statement_text(pages.iter()));
        match lib {
            Ok(Ok(st)) => {
                months.insert((st.month_date.year(), st.month_date.month() as u8));
                wants.push(Want {
                    month: acb::util::date::to_pretty_string(&st.month_date),
                    total: st.total,
                    secs: st.fmvs.iter().map(|f| (squash(&f.security_desc), f.fmv)).collect(),
                });
            }
            Ok(Err(_)) => expect_fail = true, // e.g. the month only on a page visited after the table
            Err(_) => {
                skipped = Some("parse_statement_text panics on the generated pages".into());
                break;
            }
        }
        let name = format!("{}_{}.pdf", ["zeta", "alpha", "mid"][k % 3], k);
        match make_pdf(&c.pages) {
            Some(mut doc) => {
                if doc.save(root.join(&name)).is_err() {
                    skipped = Some("could not write the PDF".into());
                    break;
                }
            }
            None => {
                skipped = Some("unprintable line".into());
                break;
            }
        }
        repro.push_str(&format!("=== {} ({} pages)\n{}\n", name, c.pages.len(), c.pages.join("\n--- page break ---\n")));
        files.push(name);
    }
    out.push_str(&format!("case {} fmvpdf statements={} parallel={}\n", id, files.len(), if parallel { 1 } else { 0 }));
    if let Some(why) = skipped {
        out.push_str(&format!("impl skipped {}\n", why.replace(' ', "_")));
    } else {
        let exe = std::env::current_exe().unwrap();
        let mut cmd = Command::new(exe);
        cmd.args(&files).current_dir(&root).env("ACB_VERIF_MULTICALL", "qfmv").env_remove("RUST_LOG");
        if parallel {
            cmd.env("PARALLEL_STATEMENTS", "1");
        } else {
            cmd.env_remove("PARALLEL_STATEMENTS");
        }
        match cmd.output() {
            Err(_) => out.push_str("impl skipped spawn_failed\n"),
            Ok(o) => {
                let stdout = String::from_utf8_lossy(&o.stdout).to_string();
                let code = o.status.code().unwrap_or(-1);
                let verdict = if expect_fail {
                    if code != 0 { Ok(()) } else { Err("a statement that parse_statement_text rejects (read in the tool's page order) was accepted".to_string()) }
                } else {
                    judge(&stdout, code, &wants)
                };
                match verdict {
                    Ok(()) => out.push_str(&format!("impl same rows={} secs={}\n", wants.len(), wants.iter().map(|w| w.secs.len()).sum::<usize>())),
                    Err(e) => out.push_str(&format!("impl differ exit={} {}\n", code, oneline(&e))),
                }
            }
        }
    }
    out.push_str(&format!("repro {}\nend\n", oneline(&format!("questrade-statement-fmv {}\n{}", files.join(" "), repro))));
    let _ = std::fs::remove_dir_all(&root);
}

fn judge(stdout: &str, code: i32, wants: &[Want]) -> Result<(), String> {
    if code != 0 {
        return Err(format!("the tool failed (exit {}) on statements that parse_statement_text accepts page by page", code));
    }
    // pdf-extract prints the entries of a ToUnicode map on stdout while it reads a font: the table
    // starts at its header line
    let stdout = match stdout.find("Month,") {
        Some(i) => &stdout[i..],
        None => return Err("no table header in the output".into()),
    };
    let mut rd = csv::ReaderBuilder::new().has_headers(false).flexible(true).from_reader(stdout.as_bytes());
    let recs: Vec<Vec<String>> = rd.records().filter_map(|x| x.ok()).map(|x| x.iter().map(|c| c.to_string()).collect()).collect();
    if recs.is_empty() {
        return Err("no output".into());
    }
    let header = &recs[0];
    if header.len() < 2 {
        return Err(format!("header too short: {:?}", header));
    }
    // notes: "ABBR = description"
    let mut abbr: BTreeMap<String, String> = BTreeMap::new();
    let mut rows: Vec<&Vec<String>> = Vec::new();
    for rec in &recs[1..] {
        let first = rec.first().cloned().unwrap_or_default();
        let rest_empty = rec.iter().skip(1).all(|c| c.is_empty());
        if rest_empty && first.contains(" = ") {
            let (a, d) = first.split_once(" = ").unwrap();
            if abbr.insert(a.to_string(), squash(d)).is_some() {
                return Err(format!("abbreviation {} explained twice", a));
            }
        } else {
            rows.push(rec);
        }
    }
    for h in &header[2..] {
        if !abbr.contains_key(h) {
            return Err(format!("column {} is not explained by a note", h));
        }
    }
    // every holding of every statement has a column (descriptions compared up to white space, which
    // the PDF text extraction does not preserve; two spellings may therefore share a description)
    let descs: Vec<String> = header[2..].iter().map(|h| abbr[h].clone()).collect();
    let all: BTreeSet<String> = wants.iter().flat_map(|w| w.secs.iter().map(|s| s.0.clone())).collect();
    let shown: BTreeSet<String> = descs.iter().cloned().collect();
    if all != shown {
        let missing: Vec<&String> = all.difference(&shown).collect();
        let extra: Vec<&String> = shown.difference(&all).collect();
        return Err(format!("securities listed in the statements but without a column: {:?}; columns for no listed security: {:?}", missing, extra));
    }
    if rows.len() != wants.len() {
        return Err(format!("{} rows for {} statements", rows.len(), wants.len()));
    }
    for w in wants {
        let row = match rows.iter().find(|r| r.first().map(|c| c == &w.month).unwrap_or(false)) {
            Some(r) => r,
            None => return Err(format!("no row for the statement of {}", w.month)),
        };
        let rnd = |d: &Decimal| d.round_dp_with_strategy(2, rust_decimal::RoundingStrategy::MidpointAwayFromZero);
        if money(row.get(1).map(|s| s.as_str()).unwrap_or("")) != Some(rnd(&w.total)) {
            return Err(format!("{}: total shown {:?}, statement says {}", w.month, row.get(1), w.total));
        }
        // every filled cell is a listed holding with its market value; every listed description is
        // shown; no more figures than holdings
        let filled: Vec<usize> = (0..descs.len()).filter(|ci| row.get(2 + ci).map(|c| c != "-").unwrap_or(false)).collect();
        for ci in &filled {
            let cell = &row[2 + *ci];
            if !w.secs.iter().any(|(d, v)| d == &descs[*ci] && money(cell) == Some(rnd(v))) {
                return Err(format!("{}: column {} shows {}, which is no holding of that statement", w.month, descs[*ci], cell));
            }
        }
        for (d, v) in &w.secs {
            if !filled.iter().any(|ci| &descs[*ci] == d) {
                return Err(format!("{}: holding {} ({}) is not shown", w.month, d, v));
            }
        }
        if filled.len() > w.secs.len() {
            return Err(format!("{}: {} figures shown for {} holdings", w.month, filled.len(), w.secs.len()));
        }
    }
    // rows in month order is not judged (same-month statements are not generated)
    Ok(())
}

pub fn cleanup() {
    let _ = std::fs::remove_dir_all(scratch_root());
}

#[allow(dead_code)]
fn _unused(_: &Path) {}
