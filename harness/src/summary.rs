//! Family `summary` (C10): full history versus (generated summary CSV + the rows settling after the
//! summary date), both through the real pipeline.
use std::collections::HashMap;

use acb::app::{run_acb_app_summary_to_model, Options};
use acb::portfolio::io::tx_csv::{write_txs_to_csv, TxCsvParseOptions};
use acb::portfolio::{Tx, TxActionSpecifics};
use acb::util::rw::{DescribedReader, WriteHandle};
use rust_decimal::Decimal;

use crate::app;
use crate::ledger;
use acb::portfolio::Affiliate;
use crate::common::*;
use crate::rng::Rng;

fn run_two_files(f1: String, f2: String, inits: &[(String, Decimal, Decimal)]) -> Result<app::AppResult, String> {
    let readers = vec![
        DescribedReader::from_string("summary.csv".to_string(), f1),
        DescribedReader::from_string("later.csv".to_string(), f2),
    ];
    let inits = app::init_map(inits);
    catch(move || {
        async_std::task::block_on(acb::app::run_acb_app_to_delta_models(
            readers,
            inits,
            &TxCsvParseOptions::default(),
            app::rate_loader(),
            WriteHandle::empty_write_handle(),
        ))
    })
}

/// Re-runs a case from its protocol lines (`case ... cut= annual= dflt=` + `row` lines).
pub fn replay(lines: &[String], out: &mut String) -> bool {
    let head: Vec<&str> = lines[0].split_whitespace().collect();
    let kv = |k: &str| head.iter().find_map(|t| t.strip_prefix(&format!("{}=", k)).map(|v| v.to_string()));
    let (Some(cut), Some(annual), Some(dflt)) = (kv("cut"), kv("annual"), kv("dflt")) else { return false };
    let (Ok(cut), Ok(dflt)) = (cut.parse::<i32>(), dflt.parse::<usize>()) else { return false };
    let Some((names, rows)) = app::parse_rows(dflt, &lines[1..]) else { return false };
    if rows.is_empty() {
        return false;
    }
    run_rows(head[1], names, rows, cut, annual == "1", out);
    true
}

/// One position sold off in several steps, some at a loss, some at a gain, 5-40 days apart, hardly
/// any purchase in between; the summary date falls on or next to one of the sales.  (Loss sales
/// on both sides of the summary date whose windows chain backwards.)
fn run_loss_chain_case(id: &str, r: &mut Rng, out: &mut String) {
    let names = vec!["Default".to_string(), "Spouse".to_string()];
    let affs: Vec<Affiliate> = names.iter().map(|n| Affiliate::from_strep(n)).collect();
    let mut day = ledger::BASE_JD + 300;
    let mut rows: Vec<Tx> = Vec::new();
    rows.push(ledger::mk_tx(day, &affs[0], ledger::buy(Decimal::new(100, 0), Decimal::new(50, 0))));
    if r.chance(30) {
        rows.push(ledger::mk_tx(day + 1, &affs[1], ledger::buy(Decimal::new(40, 0), Decimal::new(48, 0))));
    }
    day += 60 + r.range(0, 100) as i32;
    let n = 3 + r.below(4);
    let mut left = 100i64;
    let mut sale_days = Vec::new();
    for _ in 0..n {
        if left <= 1 {
            break;
        }
        day += *r.pick(&[5, 10, 19, 21, 29, 30, 31, 40]);
        if r.chance(10) {
            rows.push(ledger::mk_tx(day, &affs[0], ledger::buy(Decimal::new(r.range(1, 10), 0), Decimal::new(r.range(3000, 6000), 2))));
            continue;
        }
        let q = 1 + r.below((left as u64 / 2).max(1)) as i64;
        left -= q;
        let px = if r.chance(65) { Decimal::new(r.range(2000, 4900), 2) } else { Decimal::new(r.range(5100, 8000), 2) };
        // some loss sales carry a superficial loss forced by the user ('!'), with its SfLA row
        let forced = px < Decimal::new(45, 0) && r.chance(30);
        let spec = if forced {
            let v = Decimal::new(r.range(1, 400), 2);
            Some((v, acb::portfolio::SFLInput {
                superficial_loss: acb::util::decimal::LessEqualZeroDecimal::try_from(-v).unwrap(),
                force: true,
            }))
        } else {
            None
        };
        rows.push(ledger::mk_tx(day, &affs[0], ledger::sell(Decimal::new(q, 0), px, spec.as_ref().map(|x| x.1.clone()))));
        if let Some((v, _)) = spec {
            rows.push(ledger::mk_tx(
                day,
                &affs[0],
                TxActionSpecifics::Sfla(acb::portfolio::SflaTxSpecifics {
                    shares_affected: acb::util::decimal::PosDecimal::try_from(Decimal::ONE).unwrap(),
                    amount_per_share: acb::util::decimal::PosDecimal::try_from(v).unwrap(),
                }),
            ));
        }
        sale_days.push(day);
    }
    // every third chain is moved so that one sale is traded at the end of December and settles in
    // January (sales settle three days after the trade in these chains)
    if r.chance(33) && !sale_days.is_empty() {
        let pivot = *r.pick(&sale_days);
        let y = date_from_jd(pivot).year();
        let target = jd(time::Date::from_calendar_date(y + 1, time::Month::January, 2).unwrap());
        let shift = target - pivot;
        for t in rows.iter_mut() {
            let s2 = date_from_jd(jd(t.settlement_date) + shift);
            t.settlement_date = s2;
            t.trade_date = match t.action_specifics {
                TxActionSpecifics::Sell(_) => date_from_jd(jd(s2) - 3),
                _ => s2,
            };
        }
        for d in sale_days.iter_mut() {
            *d += shift;
        }
    }
    // some chains trade in USD with the commission charged in CAD (a separate commission currency
    // without an exchange rate of its own in the written CSV)
    if r.chance(30) {
        for t in rows.iter_mut() {
            if let TxActionSpecifics::Sell(sp) = &mut t.action_specifics {
                sp.tx_currency_and_rate = ledger::cer("USD", Decimal::new(13, 1));
                sp.amount_per_share = acb::util::decimal::GreaterEqualZeroDecimal::try_from((*sp.amount_per_share / Decimal::new(13, 1)).round_dp(4)).unwrap();
                sp.commission = acb::util::decimal::GreaterEqualZeroDecimal::try_from(Decimal::new(999, 2)).unwrap();
                sp.separate_commission_currency = Some(ledger::cer("CAD", Decimal::ONE));
            }
        }
    }
    // ... and some in a foreign currency booked at par (an exchange rate of exactly 1 is not "no rate")
    else if r.chance(25) {
        for t in rows.iter_mut() {
            match &mut t.action_specifics {
                TxActionSpecifics::Sell(sp) => sp.tx_currency_and_rate = ledger::cer("USD", Decimal::ONE),
                TxActionSpecifics::Buy(bp) => bp.tx_currency_and_rate = ledger::cer("USD", Decimal::ONE),
                _ => {}
            }
        }
    }
    for (i, t) in rows.iter_mut().enumerate() {
        t.read_index = i as u32;
        t.security = "S0".to_string();
    }
    if sale_days.is_empty() {
        return;
    }
    let cut = *r.pick(&sale_days) + *r.pick(&[0i32, 0, 1, -1, 3]);
    let annual = r.chance(40);
    run_rows(id, names, rows, cut, annual, out);
}

/// A year whose realised gains and losses cancel exactly (annual-gains mode must still account for
/// the year), and a carried-over USD row whose commission is in CAD.
fn run_cancel_case(id: &str, r: &mut Rng, out: &mut String) {
    let names = vec!["Default".to_string()];
    let a = Affiliate::from_strep("Default");
    let y = 2019 + r.below(3) as i32;
    let d = |m: time::Month, day: u8, yy: i32| jd(time::Date::from_calendar_date(yy, m, day).unwrap());
    let mut rows: Vec<Tx> = Vec::new();
    rows.push(ledger::mk_tx(d(time::Month::January, 10, y), &a, ledger::buy(Decimal::new(100, 0), Decimal::new(50, 0))));
    rows.push(ledger::mk_tx(d(time::Month::March, 1, y), &a, ledger::sell(Decimal::new(10, 0), Decimal::new(60, 0), None)));
    rows.push(ledger::mk_tx(d(time::Month::June, 1, y), &a, ledger::sell(Decimal::new(10, 0), Decimal::new(40, 0), None)));
    if r.chance(50) {
        rows.push(ledger::mk_tx(d(time::Month::September, 1, y), &a, ledger::sell(Decimal::new(3, 0), Decimal::new(70, 0), None)));
        rows.push(ledger::mk_tx(d(time::Month::November, 1, y), &a, ledger::sell(Decimal::new(2, 0), Decimal::new(20, 0), None)));
    }
    rows.push(ledger::mk_tx(d(time::Month::February, 15, y + 1), &a, ledger::sell(Decimal::new(5, 0), Decimal::new(55, 0), None)));
    rows.push(ledger::mk_tx(d(time::Month::August, 15, y + 1), &a, ledger::buy(Decimal::new(7, 0), Decimal::new(45, 0))));
    for (i, t) in rows.iter_mut().enumerate() {
        t.read_index = i as u32;
        t.security = "S0".to_string();
    }
    let cut = *r.pick(&[d(time::Month::December, 31, y), d(time::Month::January, 20, y + 1), d(time::Month::July, 1, y)]);
    run_rows(id, names, rows, cut, r.chance(80), out);
}

pub fn run_case(id: &str, r: &mut Rng, out: &mut String) {
    if r.chance(15) {
        return run_loss_chain_case(id, r, out);
    }
    if r.chance(6) {
        return run_cancel_case(id, r, out);
    }
    let mut names = vec!["Default".to_string()];
    // error-free histories are the domain of C10; most cases drop the (mostly inconsistent) random
    // manual superficial-loss entries so that more histories are error-free
    let (mut rows, _init) = app::gen_security(r, "S0", &mut names);
    if r.chance(75) {
        rows.retain(|t| match &t.action_specifics {
            TxActionSpecifics::Sfla(_) => false,
            TxActionSpecifics::Sell(s) => s.specified_superficial_loss.is_none(),
            _ => true,
        });
    }
    if rows.is_empty() {
        return;
    }
    // summary date: around a row boundary
    let k = r.below(rows.len() as u64) as usize;
    let off = *r.pick(&[0i32, 0, 0, 1, -1, 5, 29, 30, 31, -30]);
    let cut = jd(rows[k].settlement_date) + off;
    let annual = r.chance(40);
    run_rows(id, names, rows, cut, annual, out);
}

fn run_rows(id: &str, names: Vec<String>, rows: Vec<Tx>, cut: i32, annual: bool, out: &mut String) {
    let case = app::AppCase { names: names.clone(), rows: rows.clone(), inits: vec![], cuts: vec![] };
    let uni = app::universe(&case);
    let full = app::run_app(&rows, &[], &[]);
    let ok = match &full {
        Ok(Ok(m)) => m.values().all(|d| d.0.is_ok()),
        _ => false,
    };
    if !ok {
        return; // C10 quantifies over error-free histories
    }
    // what acb --summarize-before does
    let readers = vec![DescribedReader::from_string("all.csv".to_string(), app::txs_to_csv(&rows))];
    let options = Options { split_annual_summary_gains: annual, ..Options::default() };
    acb::util::date::set_todays_date_for_test(date_from_jd(cut + 4000));
    let summ = catch(move || {
        async_std::task::block_on(run_acb_app_summary_to_model(
            date_from_jd(cut),
            readers,
            HashMap::new(),
            options,
            app::rate_loader(),
            WriteHandle::empty_write_handle(),
        ))
    });
    out.push_str(&format!("case {} summary cut={} annual={} n={} dflt={}\n", id, cut, if annual { 1 } else { 0 }, rows.len(), uni.default_key()));
    app::emit_rows(&uni, &rows, out);
    app::emit_result(&uni, "full", &full, out);
    match summ {
        Err(p) => out.push_str(&format!("sum panic {}\n", oneline(&p))),
        Ok(Err(e)) => out.push_str(&format!(
            "sum err {}\n",
            oneline(&format!("{:?} {:?}", e.general_error, e.sec_errors))
        )),
        Ok(Ok(data)) => {
            let nsum = data.txs.len();
            let csv_txs: Vec<acb::portfolio::CsvTx> = data.txs.iter().map(|t| t.to_csvtx()).collect();
            let (mut wh, sb) = WriteHandle::string_buff_write_handle();
            let sum_csv = if nsum > 0 {
                write_txs_to_csv(&csv_txs, &mut wh).expect("csv write");
                let s = sb.borrow().as_str().to_string();
                s
            } else {
                // acb prints nothing when there is nothing to summarise
                "security,trade date,settlement date,action,shares,amount/share\n".to_string()
            };
            let later: Vec<Tx> = rows.iter().filter(|t| jd(t.settlement_date) > cut).cloned().collect();
            out.push_str(&format!("sum ok nsum={} nlater={}\n", nsum, later.len()));
            for t in &data.txs {
                let mut t2 = t.clone();
                t2.read_index = 0;
                out.push_str(&format!("sumtx {}\n", &crate::ledger::tx_line(&uni, &t2)[3..]));
            }
            let res2 = run_two_files(sum_csv.clone(), app::txs_to_csv(&later), &[]);
            app::emit_result(&uni, "rerun", &res2, out);
            let mut repro = format!("summary date {} annual={}\n--- all.csv\n", date_str(date_from_jd(cut)), annual);
            repro.push_str(&app::txs_to_csv(&rows));
            repro.push_str("--- generated summary.csv\n");
            repro.push_str(&sum_csv);
            out.push_str(&format!("repro {}\n", oneline(&repro)));
        }
    }
    out.push_str("end\n");
}
