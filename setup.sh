#!/bin/sh
# Builds the framework from files on disk only (offline): Lean model + theorems + driver, Rust harness.
set -e
cd "$(dirname "$0")"
export CARGO_NET_OFFLINE=true
python3 tools/extract.py
(cd lean && lake build)
cp repo_link/Cargo.lock harness/Cargo.lock
(cd harness && cargo build --release --offline)
echo setup-ok
